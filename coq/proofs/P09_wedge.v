(* C09: find_omega_wedge (GrainSpotter convention): rotation matrix Ry(-wedge).Rz(omega) *)
From Coq Require Import Reals Lra Psatz List.
From XV Require Import RealLib Mat3 Atan2 OmegaSolve Gen_laue P03_laue P09_laue.
Import ListNotations.
Open Scope R_scope.

Definition wedge_mat (wedge w : R) : M3 := mmul (Ry (- wedge)) (Rz w).
Lemma wedge_mat_rot wedge w : is_rot (wedge_mat wedge w).
Proof. apply rot_mmul; auto using rot_Ry, rot_Rz. Qed.

(* the algebra, over abstract values: (gx,gy,gz) unit vector, sh/ch = sin/cos(theta), sw/cw = sin/cos(wedge), ce/se = cos/sin(eta) *)
Section Core.
Variables gx gy gz sh ch sw cw ce se : R.
Hypothesis Hg : gx * gx + gy * gy + gz * gz = 1.
Hypothesis Hh : sh * sh + ch * ch = 1.
Hypothesis Hw : sw * sw + cw * cw = 1.
Hypothesis He : se * se + ce * ce = 1.
Hypothesis Hce : ce * cw * (2 * sh * ch) = gz * (2 * sh) + sw * (- 2 * sh * sh).
Hypothesis Hsh : 0 < sh.
Hypothesis Hxy : gx * gx + gy * gy <> 0.

Let a := cw * (- 2 * sh * sh) + sw * (2 * sh * ch) * ce.
Let b := - (2 * sh * ch) * se.
Let D := a * a + b * b.
Let so := (b * gx - a * gy) / D.
Let co := (a * gx + b * gy) / D.

Lemma core_D : D = 4 * sh * sh * (gx * gx + gy * gy).
Proof.
  unfold D, a, b. assert (Z : sh <> 0) by lra.
  assert (E : gz * sh = ce * cw * sh * ch + sw * sh * sh) by nra.
  assert (E2 : gz = ce * cw * ch + sw * sh) by (apply (Rmult_eq_reg_r sh); [nra | exact Z]).
  replace (gx * gx + gy * gy) with (1 - gz * gz) by lra. rewrite E2.
  clear - Hh Hw He. nsatz_R.
Qed.
Lemma core_D_nz : D <> 0.
Proof. rewrite core_D. assert (0 < sh * sh) by nra. apply Rmult_integral_contrapositive_currified; [nra | exact Hxy]. Qed.

(* the form used before the repair of F11 (division by a) agrees wherever it is defined *)
Lemma core_co_old : a <> 0 -> (gx - b * so) / a = co.
Proof. intros Ha. unfold co, so. pose proof core_D_nz as N. unfold D in *. field. split; [exact N | exact Ha]. Qed.
Lemma core_co : co = (a * gx + b * gy) / D.
Proof. reflexivity. Qed.

Lemma core_unit : (2 * sh * so) * (2 * sh * so) + (2 * sh * co) * (2 * sh * co) = 1.
Proof.
  rewrite core_co. unfold so. pose proof core_D_nz as N. pose proof core_D as E.
  assert (Q : (b * gx - a * gy) * (b * gx - a * gy) + (a * gx + b * gy) * (a * gx + b * gy) = D * (gx * gx + gy * gy)) by (unfold D; ring).
  replace (2 * sh * ((b * gx - a * gy) / D) * (2 * sh * ((b * gx - a * gy) / D)) + 2 * sh * ((a * gx + b * gy) / D) * (2 * sh * ((a * gx + b * gy) / D)))
    with (4 * sh * sh * ((b * gx - a * gy) * (b * gx - a * gy) + (a * gx + b * gy) * (a * gx + b * gy)) / (D * D)) by (field; exact N).
  rewrite Q. replace (4 * sh * sh * (D * (gx * gx + gy * gy))) with (D * (4 * sh * sh * (gx * gx + gy * gy))) by ring.
  rewrite <- E. field. exact N.
Qed.

(* v = Rz(omega) (sh g) with (cos omega, sin omega) = (2 sh co, 2 sh so) *)
Lemma core_vx : (2 * sh * co) * (sh * gx) - (2 * sh * so) * (sh * gy) = a / 2.
Proof.
  rewrite core_co. unfold so. pose proof core_D_nz as N. pose proof core_D as E.
  field_simplify_eq; [|exact N]. rewrite E. ring.
Qed.
Lemma core_vy : (2 * sh * so) * (sh * gx) + (2 * sh * co) * (sh * gy) = b / 2.
Proof.
  rewrite core_co. unfold so. pose proof core_D_nz as N. pose proof core_D as E.
  field_simplify_eq; [|exact N]. rewrite E. ring.
Qed.
Lemma core_x : cw * (a / 2) - sw * (sh * gz) = - (sh * sh).
Proof.
  unfold a. assert (E : sh * gz = ce * cw * sh * ch + sw * sh * sh) by nra. rewrite E. field_simplify_eq. clear - Hw. nsatz_R.
Qed.
Lemma core_z : sw * (a / 2) + cw * (sh * gz) = (2 * sh * ch) * ce / 2.
Proof.
  unfold a. assert (E : sh * gz = ce * cw * sh * ch + sw * sh * sh) by nra. rewrite E. field_simplify_eq. clear - Hw. nsatz_R.
Qed.
End Core.

Lemma Rabs_le_inv' a b : Rabs a <= b -> - b <= a <= b.
Proof. unfold Rabs. destruct (Rcase_abs a); lra. Qed.

Lemma atan2_scale k y x : 0 < k -> atan2 (k * y) (k * x) = atan2 y x.
Proof.
  intros Hk. unfold atan2.
  assert (Q : x <> 0 -> k * y / (k * x) = y / x) by (intros; field; split; lra).
  destruct (Rlt_dec 0 x) as [X|X].
  - destruct (Rlt_dec 0 (k * x)) as [_|N]; [rewrite Q by lra; reflexivity | exfalso; apply N; nra].
  - destruct (Rlt_dec 0 (k * x)) as [N|_]; [exfalso; nra|].
    destruct (Rlt_dec x 0) as [X'|X'].
    + destruct (Rlt_dec (k * x) 0) as [_|N]; [|exfalso; apply N; nra]. rewrite Q by lra.
      destruct (Rle_dec 0 y), (Rle_dec 0 (k * y)); try reflexivity; exfalso; nra.
    + destruct (Rlt_dec (k * x) 0) as [N|_]; [exfalso; nra|].
      destruct (Rlt_dec 0 y), (Rlt_dec 0 (k * y)); try reflexivity; try (exfalso; nra).
      destruct (Rlt_dec y 0), (Rlt_dec (k * y) 0); try reflexivity; exfalso; nra.
Qed.

(* the quantities the code computes, named *)
Definition wedge_coseta (g : V3) (tth wedge : R) : R :=
  let n := sqrt (vx g * vx g + vy g * vy g + vz g * vz g) in
  (vz g / n * sqrt (-2 * (cos tth - 1)) + sin wedge * (cos tth - 1)) / cos wedge / sin tth.
Definition wedge_a (g : V3) (tth wedge : R) : R :=
  cos wedge * (cos tth - 1) + sin wedge * sin tth * wedge_coseta g tth wedge.
Definition wedge_omega (g : V3) (tth wedge eta : R) : R :=
  let n := sqrt (vx g * vx g + vy g * vy g + vz g * vz g) in
  let a := wedge_a g tth wedge in
  let b := - sin tth * sin eta in
  let so := (b * (vx g / n) - a * (vy g / n)) / (a * a + b * b) in
  atan2 so ((a * (vx g / n) + b * (vy g / n)) / (a * a + b * b)).

Lemma wedge_refines g tth wedge :
  laue_find_omega_wedge g tth wedge =
  let ce := wedge_coseta g tth wedge in
  if Rlt_dec 1 (Rabs ce) then ([], [])
  else ([wedge_omega g tth wedge (acos ce); wedge_omega g tth wedge (- acos ce)], [acos ce; - acos ce]).
Proof.
  unfold laue_find_omega_wedge, wedge_omega, wedge_a, wedge_coseta; cbv zeta.
  destruct (Rlt_dec 1 _) as [L|L]; [reflexivity|].
  pose proof PI_RGT_0 as P.
  repeat match goal with |- context [Rlt_dec PI (atan2 ?y ?x)] =>
    destruct (Rlt_dec PI (atan2 y x)) as [Q|_]; [exfalso; pose proof (atan2_range y x); lra|] end.
  reflexivity.
Qed.

Section Wedge.
Variables (g : V3) (tth wedge : R).
Hypothesis Ht : 0 < tth < PI.
Hypothesis Hg : vx g * vx g + vy g * vy g <> 0.
Hypothesis Hcw : cos wedge <> 0.
Let n := sqrt (vx g * vx g + vy g * vy g + vz g * vz g).
Let gn := normalise_to tth g.
Let ce := wedge_coseta g tth wedge.
Hypothesis Hce : Rabs ce <= 1.

Lemma n_pos : 0 < n.
Proof. unfold n. apply sqrt_lt_R0. pose proof (Rle_0_sqr (vz g)) as Q. unfold Rsqr in Q. assert (0 <= vx g * vx g) by nra. assert (0 <= vy g * vy g) by nra. lra. Qed.

Lemma half_angle : sin tth = 2 * sin (tth / 2) * cos (tth / 2) /\ cos tth - 1 = - 2 * sin (tth / 2) * sin (tth / 2) /\ 0 < sin (tth / 2)
                   /\ sqrt (-2 * (cos tth - 1)) = 2 * sin (tth / 2).
Proof.
  assert (S : sin tth = 2 * sin (tth / 2) * cos (tth / 2)) by (replace tth with (2 * (tth / 2)) at 1 by field; apply sin_2a).
  assert (C : cos tth = 1 - 2 * sin (tth / 2) * sin (tth / 2)) by (replace tth with (2 * (tth / 2)) at 1 by field; apply cos_2a_sin).
  assert (Hs : 0 < sin (tth / 2)) by (apply sin_gt_0; lra).
  repeat split; try lra.
  replace (-2 * (cos tth - 1)) with ((2 * sin (tth / 2)) * (2 * sin (tth / 2))) by lra. apply sqrt_square. lra.
Qed.

(* one solution: eta with cos eta = ce *)
Lemma wedge_solution eta : cos eta = ce ->
  diffracts (wedge_mat wedge (wedge_omega g tth wedge eta)) gn tth eta /\ - PI < wedge_omega g tth wedge eta <= PI.
Proof.
  intros Hc. split; [|unfold wedge_omega; cbv zeta; apply atan2_range].
  destruct half_angle as (S & C & Hs & Q). pose proof n_pos as Np.
  set (sh := sin (tth / 2)) in *. set (ch := cos (tth / 2)) in *.
  set (gx := vx g / n). set (gy := vy g / n). set (gz := vz g / n).
  assert (Hn2 : n * n = vx g * vx g + vy g * vy g + vz g * vz g).
  { unfold n. apply sqrt_sqrt. pose proof (Rle_0_sqr (vx g)); pose proof (Rle_0_sqr (vy g)); pose proof (Rle_0_sqr (vz g)); unfold Rsqr in *; lra. }
  assert (G1 : gx * gx + gy * gy + gz * gz = 1) by (unfold gx, gy, gz; field_simplify_eq; [nra | lra]).
  assert (Gxy : gx * gx + gy * gy <> 0).
  { unfold gx, gy. intro Z. apply Hg. assert (E : (vx g * vx g + vy g * vy g) / (n * n) = 0) by (rewrite <- Z; field; lra).
    apply (Rmult_eq_compat_r (n * n)) in E. unfold Rdiv in E. rewrite Rmult_assoc, Rinv_l, Rmult_1_r, Rmult_0_l in E by nra. exact E. }
  assert (Hh : sh * sh + ch * ch = 1) by (unfold sh, ch; pose proof (sin2_cos2 (tth / 2)) as X; unfold Rsqr in X; lra).
  assert (Hw : sin wedge * sin wedge + cos wedge * cos wedge = 1) by (pose proof (sin2_cos2 wedge) as X; unfold Rsqr in X; lra).
  assert (He : sin eta * sin eta + ce * ce = 1) by (rewrite <- Hc; pose proof (sin2_cos2 eta) as X; unfold Rsqr in X; lra).
  assert (Hch : ch <> 0).
  { unfold ch. apply Rgt_not_eq. apply cos_gt_0; lra. }
  assert (Hrel : ce * cos wedge * (2 * sh * ch) = gz * (2 * sh) + sin wedge * (- 2 * sh * sh)).
  { unfold ce, wedge_coseta; cbv zeta. fold n. fold gz. rewrite Q, S, C. field. repeat split; try assumption; lra. }
  (* the code's a, b, so, co in core form *)
  assert (Ea : wedge_a g tth wedge = cos wedge * (- 2 * sh * sh) + sin wedge * (2 * sh * ch) * ce).
  { unfold wedge_a. fold ce. rewrite S, C. ring. }
  assert (Eb : - sin tth * sin eta = - (2 * sh * ch) * sin eta) by (rewrite S; ring).
  pose proof (core_unit gx gy gz sh ch (sin wedge) (cos wedge) ce (sin eta) G1 Hh Hw He Hrel Hs Gxy) as CU.
  pose proof (core_vx gx gy gz sh ch (sin wedge) (cos wedge) ce (sin eta) G1 Hh Hw He Hrel Hs Gxy) as CX.
  pose proof (core_vy gx gy gz sh ch (sin wedge) (cos wedge) ce (sin eta) G1 Hh Hw He Hrel Hs Gxy) as CY.
  pose proof (core_x gz sh ch (sin wedge) (cos wedge) ce Hw Hrel) as KX.
  pose proof (core_z gz sh ch (sin wedge) (cos wedge) ce Hw Hrel) as KZ.
  cbv zeta in CU, CX, CY, KX, KZ.
  set (a := cos wedge * (- 2 * sh * sh) + sin wedge * (2 * sh * ch) * ce) in *.
  set (b := - (2 * sh * ch) * sin eta) in *.
  set (so := (b * gx - a * gy) / (a * a + b * b)) in *.
  set (co := (a * gx + b * gy) / (a * a + b * b)) in *.
  assert (Ew : wedge_omega g tth wedge eta = atan2 (2 * sh * so) (2 * sh * co)).
  { unfold wedge_omega; cbv zeta. fold n gx gy. rewrite Ea, Eb. fold a b so co. symmetry. apply atan2_scale. lra. }
  assert (Cw : cos (wedge_omega g tth wedge eta) = 2 * sh * co) by (rewrite Ew; apply cos_atan2_unit; exact CU).
  assert (Sw : sin (wedge_omega g tth wedge eta) = 2 * sh * so) by (rewrite Ew; apply sin_atan2_unit; exact CU).
  unfold diffracts, wedge_mat, gn, normalise_to; cbv zeta. fold n sh.
  unfold Ry, Rz, mmul, mvmul; cbn. rewrite cos_neg, sin_neg, Cw, Sw, Hc.
  replace (sh * vx g / n) with (sh * gx) by (unfold gx; field; lra).
  replace (sh * vy g / n) with (sh * gy) by (unfold gy; field; lra).
  replace (sh * vz g / n) with (sh * gz) by (unfold gz; field; lra).
  f_equal.
  - replace (- (sh * sh)) with (cos wedge * (a / 2) - sin wedge * (sh * gz)) by exact KX. rewrite <- CX. ring.
  - rewrite S. replace (- (2 * sh * ch) * sin eta / 2) with (b / 2) by (unfold b; field). rewrite <- CY. ring.
  - rewrite S. replace (2 * sh * ch * ce / 2) with (sin wedge * (a / 2) + cos wedge * (sh * gz)) by exact KZ. rewrite <- CX. ring.
Qed.
End Wedge.

Theorem laue_find_omega_wedge_sound g tth wedge oms etas :
  0 < tth < PI -> vx g * vx g + vy g * vy g <> 0 -> cos wedge <> 0 ->
  laue_find_omega_wedge g tth wedge = (oms, etas) ->
  let gn := normalise_to tth g in let ce := wedge_coseta g tth wedge in
  (1 < Rabs ce -> oms = [] /\ etas = []) /\
  (Rabs ce <= 1 ->
     exists w1 w2, oms = [w1; w2] /\ etas = [acos ce; - acos ce] /\
       diffracts (wedge_mat wedge w1) gn tth (acos ce) /\ diffracts (wedge_mat wedge w2) gn tth (- acos ce) /\
       - PI < w1 <= PI /\ - PI < w2 <= PI).
Proof.
  intros Ht Hg Hcw E gn ce. rewrite wedge_refines in E. cbv zeta in E. fold ce in E.
  destruct (Rlt_dec 1 (Rabs ce)) as [L|L]; injection E as <- <-.
  - split; [auto | intros; lra].
  - split; [intros; lra|]. intros Hle.
    assert (B : -1 <= ce <= 1) by (apply Rabs_le_inv'; exact Hle).
    destruct (wedge_solution g tth wedge Ht Hg Hcw (acos ce)) as [D1 R1]; [apply cos_acos; exact B|].
    destruct (wedge_solution g tth wedge Ht Hg Hcw (- acos ce)) as [D2 R2]; [rewrite cos_neg; apply cos_acos; exact B|].
    eexists _, _. split; [reflexivity|]. split; [reflexivity|]. split; [exact D1|]. split; [exact D2|]. split; [exact R1 | exact R2].
Qed.

(* none missed: any omega in (-pi, pi] that brings the x-component to -sin^2(theta) is returned (and then |cos eta| <= 1) *)
Theorem laue_find_omega_wedge_complete g tth wedge w :
  0 < tth < PI -> vx g * vx g + vy g * vy g <> 0 -> cos wedge <> 0 ->
  let gn := normalise_to tth g in
  - PI < w <= PI -> vx (mvmul (wedge_mat wedge w) gn) = - (sin (tth / 2) * sin (tth / 2)) ->
  Rabs (wedge_coseta g tth wedge) <= 1 /\ In w (fst (laue_find_omega_wedge g tth wedge)).
Proof.
  intros Ht Hg Hcw gn Hw Hx.
  assert (Hg3 : vx g * vx g + vy g * vy g + vz g * vz g <> 0).
  { pose proof (Rle_0_sqr (vz g)) as Q. unfold Rsqr in Q. assert (0 <= vx g * vx g) by nra. assert (0 <= vy g * vy g) by nra.
    intro Z. apply Hg. lra. }
  pose proof (normalise_length tth g Hg3) as NL. cbv zeta in NL. fold gn in NL.
  pose proof (eta_completes (wedge_mat wedge w) gn tth (wedge_mat_rot wedge w) Ht) as D.
  unfold vnorm2, vdot in D. specialize (D NL Hx).
  set (eta := eta_of (wedge_mat wedge w) gn tth) in *.
  assert (Er : - PI < eta <= PI) by (unfold eta, eta_of; apply atan2_range).
  (* cos eta = coseta, from the x and z components *)
  pose proof (half_angle tth Ht) as (S & C & Hs & Q).
  set (sh := sin (tth / 2)) in *. set (ch := cos (tth / 2)) in *.
  assert (Hch : 0 < ch) by (unfold ch; apply cos_gt_0; lra).
  pose proof (n_pos g Hg) as Np. set (n := sqrt (vx g * vx g + vy g * vy g + vz g * vz g)) in *.
  assert (Hwd : sin wedge * sin wedge + cos wedge * cos wedge = 1) by (pose proof (sin2_cos2 wedge) as X; unfold Rsqr in X; lra).
  assert (Egz : vz gn = sh * (vz g / n)) by (unfold gn, normalise_to; cbv zeta; cbn [vz]; fold n sh; field; lra).
  assert (Hc : cos eta = wedge_coseta g tth wedge).
  { unfold diffracts in D. unfold wedge_mat, Ry, Rz, mmul, mvmul in D; cbn in D. rewrite cos_neg, sin_neg in D.
    injection D as Dx Dy Dz. fold sh in Dx.
    unfold wedge_coseta; cbv zeta. fold n. rewrite Q, S, C.
    assert (Z : vz gn = sin wedge * (sh * sh) + cos wedge * (2 * sh * ch * cos eta / 2)).
    { rewrite S in Dz. clear - Dx Dz Hwd. nsatz_R. }
    rewrite Egz in Z.
    replace (vz g / n * (2 * sh) + sin wedge * (-2 * sh * sh)) with (cos wedge * (2 * sh * ch) * cos eta) by (clear - Z; nra).
    field. repeat split; try lra; exact Hcw. }
  assert (Hle : Rabs (wedge_coseta g tth wedge) <= 1) by (rewrite <- Hc; apply Rabs_le; pose proof (COS_bound eta); lra).
  split; [exact Hle|].
  destruct (wedge_solution g tth wedge Ht Hg Hcw eta Hc) as [D' R'].
  set (w' := wedge_omega g tth wedge eta) in *.
  (* same image of gn under both matrices -> same omega *)
  assert (Eq : w = w').
  { assert (Gxy : vx gn * vx gn + vy gn * vy gn <> 0).
    { unfold gn, normalise_to; cbv zeta; cbn [vx vy]. fold n sh.
      replace (sh * vx g / n * (sh * vx g / n) + sh * vy g / n * (sh * vy g / n)) with ((sh * sh / (n * n)) * (vx g * vx g + vy g * vy g)) by (field; lra).
      apply Rmult_integral_contrapositive_currified; [|exact Hg]. apply Rgt_not_eq. apply Rdiv_lt_0_compat; nra. }
    unfold diffracts in D, D'. fold gn in D'. rewrite <- D' in D. clear D' Hc NL Egz Hx. clearbody w' eta gn. destruct gn as [px py pz]. cbn [vx vy vz] in Gxy.
    unfold wedge_mat, Ry, Rz, mmul, mvmul in D; cbn in D. rewrite cos_neg, sin_neg in D. injection D as Dx Dy Dz.
    assert (Vx : cos w * px - sin w * py = cos w' * px - sin w' * py) by (clear - Dx Dz Hwd; nsatz_R).
    assert (Vy : sin w * px + cos w * py = sin w' * px + cos w' * py) by lra.
    assert (Ec : (px * px + py * py) * (cos w - cos w') = 0) by (clear - Vx Vy; nsatz_R).
    assert (Es : (px * px + py * py) * (sin w - sin w') = 0) by (clear - Vx Vy; nsatz_R).
    apply Rmult_integral in Ec. apply Rmult_integral in Es.
    apply cos_sin_inj; [exact Hw | exact R' | destruct Ec; [contradiction | lra] | destruct Es; [contradiction | lra]]. }
  rewrite wedge_refines. cbv zeta. destruct (Rlt_dec 1 _) as [L|_]; [lra|]. cbn [fst].
  assert (B : -1 <= wedge_coseta g tth wedge <= 1) by (apply Rabs_le_inv'; exact Hle).
  pose proof PI_RGT_0 as P.
  destruct (Rle_dec 0 eta) as [Pos|Neg].
  - left. rewrite Eq. unfold w'. f_equal. rewrite <- Hc. apply acos_cos. lra.
  - right. left. rewrite Eq. unfold w'. f_equal. rewrite <- Hc, <- (cos_neg eta), acos_cos by lra. ring.
Qed.

(* tools: the same function (C14) *)
From XV Require Import Gen_tools P14_rest.
Lemma tools_find_omega_wedge_sound g tth wedge oms etas :
  0 < tth < PI -> vx g * vx g + vy g * vy g <> 0 -> cos wedge <> 0 ->
  tools_find_omega_wedge g tth wedge = (oms, etas) ->
  let gn := normalise_to tth g in let ce := wedge_coseta g tth wedge in
  (1 < Rabs ce -> oms = [] /\ etas = []) /\
  (Rabs ce <= 1 ->
     exists w1 w2, oms = [w1; w2] /\ etas = [acos ce; - acos ce] /\
       diffracts (wedge_mat wedge w1) gn tth (acos ce) /\ diffracts (wedge_mat wedge w2) gn tth (- acos ce) /\
       - PI < w1 <= PI /\ - PI < w2 <= PI).
Proof. rewrite tl_find_omega_wedge. apply laue_find_omega_wedge_sound. Qed.
Lemma tools_find_omega_wedge_complete g tth wedge w :
  0 < tth < PI -> vx g * vx g + vy g * vy g <> 0 -> cos wedge <> 0 ->
  let gn := normalise_to tth g in
  - PI < w <= PI -> vx (mvmul (wedge_mat wedge w) gn) = - (sin (tth / 2) * sin (tth / 2)) ->
  Rabs (wedge_coseta g tth wedge) <= 1 /\ In w (fst (tools_find_omega_wedge g tth wedge)).
Proof. rewrite tl_find_omega_wedge. apply laue_find_omega_wedge_complete. Qed.

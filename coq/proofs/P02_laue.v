(* C02 for xfab.laue: U, B, UBI conversions (generated definitions) *)
From Coq Require Import Reals Lra Psatz.
From XV Require Import RealLib Mat3 Atan2 Cell Gen_laue P01_laue P01_laue_b P01_laue_c P01_laue_d P01_laue_e.
Open Scope R_scope.

(* recognition: the generated entry-wise code is the matrix expression it spells out *)
Lemma laue_u_to_ubi_eq U c : laue_u_to_ubi U c = minv (mmul U (laue_form_b_mat c)).
Proof. reflexivity. Qed.
Lemma laue_ubi_to_cell_eq A : laue_ubi_to_cell A = laue_a_to_cell (mtrans A).
Proof. reflexivity. Qed.
Lemma laue_ubi_to_u_eq A : laue_ubi_to_u A = mtrans (mmul (laue_form_b_mat (laue_ubi_to_cell A)) A).
Proof. reflexivity. Qed.

Lemma laue_B_det_pos c : valid_cell c -> 0 < mdet (laue_form_b_mat c).
Proof. intros H. apply upper_posdiag_det. apply laue_B_upper_posdiag; exact H. Qed.

Lemma UB_det U c : is_rot U -> valid_cell c -> mdet (mmul U (laue_form_b_mat c)) <> 0.
Proof. intros [_ D] H. rewrite mdet_mmul, D. pose proof (laue_B_det_pos c H). lra. Qed.

(* UBI . (U B h) = h : the rows of UBI are the real-space lattice vectors *)
Lemma laue_ubi_lattice U c h : is_rot U -> valid_cell c ->
  mvmul (laue_u_to_ubi U c) (mvmul (mmul U (laue_form_b_mat c)) h) = h.
Proof.
  intros HU Hc. rewrite laue_u_to_ubi_eq, <- mvmul_mmul, minv_l by (apply UB_det; assumption). apply mvmul_I.
Qed.

Lemma laue_ubi_gram U c : is_rot U -> valid_cell c ->
  mmul (laue_u_to_ubi U c) (mtrans (laue_u_to_ubi U c)) = metric c.
Proof.
  intros HU Hc. rewrite laue_u_to_ubi_eq.
  set (B := laue_form_b_mat c).
  assert (DB : mdet B <> 0) by (pose proof (laue_B_det_pos c Hc); unfold B; lra).
  assert (DU : mdet U <> 0) by (apply rot_det_nz; exact HU).
  rewrite minv_mmul by assumption. rewrite (rot_minv U HU).
  rewrite mtrans_mmul, mtrans_invol, mmul_assoc, <- (mmul_assoc (mtrans U)).
  destruct HU as [HO _]. rewrite HO, mmul_I_l.
  (* B^-1 B^-T = (B^T B)^-1 = metric *)
  rewrite <- minv_mtrans, <- minv_mmul by (rewrite ?mdet_mtrans; exact DB).
  symmetry. apply minv_unique_r. apply laue_B_recip_metric; exact Hc.
Qed.

Lemma laue_ubi_to_cell_inv U c : is_rot U -> valid_cell c -> laue_ubi_to_cell (laue_u_to_ubi U c) = c.
Proof.
  intros HU Hc. rewrite laue_ubi_to_cell_eq. apply laue_a_to_cell_of_metric; [exact Hc|].
  rewrite mtrans_invol. apply laue_ubi_gram; assumption.
Qed.

Lemma laue_ubi_to_u_inv U c : is_rot U -> valid_cell c -> laue_ubi_to_u (laue_u_to_ubi U c) = U.
Proof.
  intros HU Hc. rewrite laue_ubi_to_u_eq, laue_ubi_to_cell_inv by assumption. rewrite laue_u_to_ubi_eq.
  set (B := laue_form_b_mat c).
  assert (DB : mdet B <> 0) by (pose proof (laue_B_det_pos c Hc); unfold B; lra).
  rewrite minv_mmul by (try assumption; apply rot_det_nz; exact HU).
  rewrite <- mmul_assoc, minv_r, mmul_I_l by exact DB. rewrite (rot_minv U HU). apply mtrans_invol.
Qed.

(* --- QR split with sign normalisation --------------------------------------------------------------- *)
Definition qr_spec (UB Q Rm : M3) : Prop := is_orth Q /\ upper Rm /\ mmul Q Rm = UB.

Lemma orth_det Q : is_orth Q -> mdet Q = 1 \/ mdet Q = -1.
Proof.
  intros H. assert (E : mdet Q * mdet Q = 1).
  { rewrite <- (mdet_mtrans Q) at 1. rewrite <- mdet_mmul. unfold is_orth in H. rewrite H. apply mdet_I. }
  destruct (Rle_lt_dec 0 (mdet Q)); [left | right]; nra.
Qed.

Section Split.
Variable qr : M3 -> M3 * M3.

Lemma laue_ub_split UB : qr_spec UB (fst (qr UB)) (snd (qr UB)) -> 0 < mdet UB ->
  let UBs := laue_ub_to_u_b qr UB in
  mmul (fst UBs) (snd UBs) = UB /\ is_rot (fst UBs) /\ upper_posdiag (snd UBs).
Proof.
  intros (HO & HU & HP) HD. cbv zeta.
  unfold laue_ub_to_u_b; cbv zeta.
  destruct (qr UB) as [Q Rm]. cbn [fst snd] in *.
  destruct Q as [q00 q01 q02 q10 q11 q12 q20 q21 q22], Rm as [r00 r01 r02 r10 r11 r12 r20 r21 r22].
  destruct HU as (U1 & U2 & U3). cbn [m10 m20 m21] in U1, U2, U3. subst r10 r20 r21.
  subst UB.
  assert (DQ := orth_det _ HO).
  rewrite mdet_mmul in HD.
  assert (DR : mdet (mkM3 r00 r01 r02 0 r11 r12 0 0 r22) = r00 * r11 * r22) by (unfold mdet; cbn; ring).
  rewrite DR in HD.
  assert (NZ : r00 <> 0 /\ r11 <> 0 /\ r22 <> 0).
  { repeat split; intro Z; subst; rewrite ?Rmult_0_l, ?Rmult_0_r in HD; lra. }
  destruct NZ as (N0 & N1 & N2).
  unfold is_orth in HO.
  cbn [m00 m01 m02 m10 m11 m12 m20 m21 m22].
  set (Q := mkM3 q00 q01 q02 q10 q11 q12 q20 q21 q22) in *.
  set (dq := mdet Q) in *.
  assert (SG : forall x, x <> 0 -> ~ x < 0 -> 0 < x) by (intros; lra).
  destruct (Rlt_dec r00 0) as [L0|L0]; destruct (Rlt_dec r11 0) as [L1|L1]; destruct (Rlt_dec r22 0) as [L2|L2];
    cbn [fst snd];
    (split; [unfold Q, mmul; cbn; f_equal; ring|]);
    (split; [split; [ revert HO; unfold Q, mmul, mtrans, mI; cbn; intros HO; injection HO as E0 E1 E2 E3 E4 E5 E6 E7 E8;
                       f_equal; lra
                     | match goal with |- ?lhs = 1 =>
                         first [ replace lhs with dq by (unfold dq, Q, mdet; cbn; ring)
                               | replace lhs with (- dq) by (unfold dq, Q, mdet; cbn; ring) ] end;
                       clearbody dq; clear - DQ HD L0 L1 L2 N0 N1 N2 SG;
                       try (pose proof (SG _ N0 L0)); try (pose proof (SG _ N1 L1)); try (pose proof (SG _ N2 L2));
                       first [ assert (P2 : 0 < r00 * r11) by nra | assert (P2 : r00 * r11 < 0) by nra ];
                       set (p2 := r00 * r11) in *; clearbody p2;
                       destruct DQ as [DQ|DQ]; subst dq; first [lra | exfalso; nra] ]
            | unfold upper_posdiag, upper; cbn; repeat split; try lra; try (apply SG; assumption) ]).
Qed.
End Split.

Section Split2.
Variable qr : M3 -> M3 * M3.

Lemma laue_ub_split_unique UB U B : qr_spec UB (fst (qr UB)) (snd (qr UB)) -> 0 < mdet UB ->
  is_rot U -> upper_posdiag B -> mmul U B = UB -> laue_ub_to_u_b qr UB = (U, B).
Proof.
  intros HQ HD HU HB E. destruct (laue_ub_split qr UB HQ HD) as (E' & HU' & HB').
  destruct (laue_ub_to_u_b qr UB) as [U' B']. cbn [fst snd] in *.
  destruct (qr_unique U' B' U B HU' HU HB' HB) as [-> ->]; [congruence | reflexivity].
Qed.

Lemma laue_ubi_to_u_b_eq A : laue_ubi_to_u_b qr A = laue_ub_to_u_b qr (minv A).
Proof. unfold laue_ubi_to_u_b; cbv zeta. destruct (laue_ub_to_u_b qr (minv A)); reflexivity. Qed.

Lemma laue_ubi_to_u_b_inv U c : is_rot U -> valid_cell c ->
  let UB := mmul U (laue_form_b_mat c) in
  qr_spec UB (fst (qr UB)) (snd (qr UB)) ->
  laue_ubi_to_u_b qr (laue_u_to_ubi U c) = (U, laue_form_b_mat c).
Proof.
  intros HU Hc UB HQ. rewrite laue_ubi_to_u_b_eq, laue_u_to_ubi_eq.
  fold UB. rewrite minv_invol by (apply UB_det; assumption).
  apply laue_ub_split_unique; try assumption.
  - unfold UB. rewrite mdet_mmul. destruct HU as [_ ->]. pose proof (laue_B_det_pos c Hc). lra.
  - apply laue_B_upper_posdiag; exact Hc.
  - reflexivity.
Qed.
End Split2.

(* ubi_to_rod is u_to_rod of the recovered U *)
Lemma laue_ubi_to_rod_def U c : is_rot U -> valid_cell c -> laue_ubi_to_rod (laue_u_to_ubi U c) = laue_u_to_rod U.
Proof.
  intros HU Hc. unfold laue_ubi_to_rod; cbv zeta. rewrite laue_ubi_to_u_inv by assumption.
  destruct (laue_u_to_rod U); reflexivity.
Qed.

(* C14 (rotation constructors): generated tools definitions equal generated laue definitions *)
From Coq Require Import Reals.
From XV Require Import RealLib Mat3 Atan2 Gen_laue Gen_tools.
Open Scope R_scope.

Lemma tl_euler_to_u a b c : tools_euler_to_u a b c = laue_euler_to_u a b c.
Proof. reflexivity. Qed.
Lemma tl_form_omega_mat w : tools_form_omega_mat w = laue_form_omega_mat w.
Proof. reflexivity. Qed.
Lemma tl_form_omega_mat_general w c d : tools_form_omega_mat_general w c d = laue_form_omega_mat_general w c d.
Proof. reflexivity. Qed.
Lemma tl_quart_to_omega w c d : tools_quart_to_omega w c d = laue_quart_to_omega w c d.
Proof. reflexivity. Qed.
Lemma tl_detect_tilt a b c : tools_detect_tilt a b c = laue_detect_tilt a b c.
Proof. reflexivity. Qed.
Lemma tl_rod_to_u r : tools_rod_to_u r = laue_rod_to_u r.
Proof. reflexivity. Qed.
Lemma tl_u_to_rod U : tools_u_to_rod U = laue_u_to_rod U.
Proof. reflexivity. Qed.
Lemma tl_arctan2 y x : tools_arctan2 y x = laue_arctan2 y x.
Proof. reflexivity. Qed.
Lemma tl_u_to_euler U : tools_u_to_euler U = laue_u_to_euler U.
Proof. reflexivity. Qed.

(* C09: find_omega_quart (rotation about the tilted axis n = Rx(wx) Ry(wy) ez, built by quart_to_omega) *)
From Coq Require Import Reals Lra Psatz List.
From XV Require Import RealLib Mat3 Atan2 OmegaSolve Gen_laue P03_laue P09_laue.
Import ListNotations.
Open Scope R_scope.

Definition q_n0 (wx wy : R) := sin wy.
Definition q_n1 (wx wy : R) := - sin wx * cos wy.
Definition q_n2 (wx wy : R) := cos wx * cos wy.

Definition quart_a (gn : V3) (wx wy : R) :=
  vx gn * (1 - sin wy ^ 2) - vy gn * sin wy * q_n1 wx wy - vz gn * sin wy * q_n2 wx wy.
Definition quart_b (gn : V3) (wx wy : R) := vz gn * q_n1 wx wy - vy gn * q_n2 wx wy.
Definition quart_c (gn : V3) (wx wy : R) :=
  - (vx gn * vx gn + vy gn * vy gn + vz gn * vz gn) - vx gn * sin wy ^ 2 - vy gn * sin wy * q_n1 wx wy - vz gn * sin wy * q_n2 wx wy.

Definition omega_quart_model (gn : V3) (tth wx wy : R) : list R * list R :=
  solver_model gn tth (fun w => laue_quart_to_omega (w * 180 / PI) wx wy) (quart_a gn wx wy) (quart_b gn wx wy) (quart_c gn wx wy).

Lemma laue_quart_refines g tth wx wy :
  laue_find_omega_quart g tth wx wy =
  let gn := normalise_to tth g in
  if Rlt_dec (Rabs ((vx gn * vx gn + vy gn * vy gn + vz gn * vz gn) - sin (tth / 2) ^ 2)) (1 / 1000000000)
  then Some (omega_quart_model gn tth wx wy) else None.
Proof.
  unfold laue_find_omega_quart, omega_quart_model, solver_model, normalise_to, quart_a, quart_b, quart_c, q_n1, q_n2, eta_of, wrap, mvmul; cbv zeta.
  cbn [vx vy vz].
  destruct (Rlt_dec (Rabs _) _); [|reflexivity].
  destruct (Rlt_dec _ 0); [reflexivity|].
  destruct (Rlt_dec PI _); destruct (Rlt_dec PI _); reflexivity.
Qed.

Lemma quart_x_component w wx wy gn :
  vx (mvmul (laue_quart_to_omega (w * 180 / PI) wx wy) gn) =
  quart_a gn wx wy * cos w + quart_b gn wx wy * sin w
  + (vx gn * sin wy ^ 2 + vy gn * sin wy * q_n1 wx wy + vz gn * sin wy * q_n2 wx wy).
Proof.
  rewrite laue_quart_comp. replace (w * 180 / PI * PI / 180) with w by (field; apply PI_neq0).
  destruct gn as [x y z]. unfold quart_a, quart_b, q_n1, q_n2.
  assert (Hx : sin wx * sin wx = 1 - cos wx * cos wx) by (pose proof (sc1 wx); lra).
  assert (Hy : sin wy * sin wy = 1 - cos wy * cos wy) by (pose proof (sc1 wy); lra).
  mcbv. cbn [Rpow_def.pow].
  set (sx := sin wx) in *; set (cx := cos wx) in *; set (sy := sin wy) in *; set (cy := cos wy) in *.
  set (sw := sin w); set (cw := cos w). clearbody sx cx sy cy sw cw.
  ring [Hx Hy].
Qed.

Theorem laue_find_omega_quart_sound g tth wx wy oms etas :
  0 < tth < PI -> vx g * vx g + vy g * vy g + vz g * vz g <> 0 ->
  let gn := normalise_to tth g in
  quart_a gn wx wy * quart_a gn wx wy + quart_b gn wx wy * quart_b gn wx wy <> 0 ->
  laue_find_omega_quart g tth wx wy = Some (oms, etas) ->
  (forall w e, In (w, e) (combine oms etas) -> diffracts (laue_quart_to_omega (w * 180 / PI) wx wy) gn tth e) /\
  (forall w, In w oms -> - PI < w <= PI) /\
  (forall w, - PI < w <= PI -> vx (mvmul (laue_quart_to_omega (w * 180 / PI) wx wy) gn) = - (sin (tth / 2) * sin (tth / 2)) -> In w oms).
Proof.
  intros Ht Hg gn Hab E. rewrite laue_quart_refines in E. cbv zeta in E. fold gn in E.
  destruct (Rlt_dec _ _) as [L|L]; [|discriminate]. injection E as E.
  pose proof (normalise_length tth g Hg) as Hn. cbv zeta in Hn. fold gn in Hn.
  assert (O : oms = fst (omega_quart_model gn tth wx wy)) by (rewrite E; reflexivity).
  assert (T : etas = snd (omega_quart_model gn tth wx wy)) by (rewrite E; reflexivity).
  subst oms etas. unfold omega_quart_model.
  assert (HOm : forall w, is_rot (laue_quart_to_omega (w * 180 / PI) wx wy)) by (intro; apply laue_quart_rot).
  pose proof (fun w => quart_x_component w wx wy gn) as Hx.
  assert (Hc : quart_c gn wx wy = - (vx gn * vx gn + vy gn * vy gn + vz gn * vz gn)
               - (vx gn * sin wy ^ 2 + vy gn * sin wy * q_n1 wx wy + vz gn * sin wy * q_n2 wx wy)) by (unfold quart_c; ring).
  split; [|split].
  - intros w e. eapply (model_sound gn tth (fun w => laue_quart_to_omega (w * 180 / PI) wx wy)); eassumption.
  - intros w. eapply (model_range gn tth (fun w => laue_quart_to_omega (w * 180 / PI) wx wy)); eassumption.
  - intros w. eapply (model_complete gn tth (fun w => laue_quart_to_omega (w * 180 / PI) wx wy)); eassumption.
Qed.

(* concrete instances showing the hypotheses of the property theorems are satisfiable *)
From Coq Require Import Reals Lra.
From Interval Require Import Tactic.
From XV Require Import RealLib Mat3 Cell.
Open Scope R_scope.

Lemma valid_cell_examples : valid_cell (mkV6 3 4 5 80 95 100) /\ valid_cell (mkV6 5 6 7 50 60 70).
Proof.
  unfold valid_cell, gram, rad; cbn [c0 c1 c2 c3 c4 c5].
  repeat split; try lra; interval.
Qed.

(* C03: u_to_euler inside the tolerance bands of _arctan2 (an argument below 1e-8 of the other is snapped to the axis value):
   the reconstructed matrix differs from U by at most 6e-8 in every entry, outside the gimbal band. *)
From Coq Require Import Reals Lra Psatz.
From XV Require Import RealLib Mat3 Atan2 Gen_laue P03_laue P03_euler.
Open Scope R_scope.

Definition tol : R := 1 / 100000000.

(* what _arctan2 returns *)
Lemma arctan2_cases y x r : laue_arctan2 y x = Some r ->
  (r = atan2 y x /\ (x <> 0 \/ y <> 0)) \/
  (Rabs x <= tol * Rabs y /\ y <> 0 /\ r = if Rlt_dec 0 y then PI / 2 else - PI / 2) \/
  (Rabs y <= tol * Rabs x /\ x <> 0 /\ r = if Rlt_dec 0 x then 0 else PI).
Proof.
  unfold laue_arctan2, tol; cbv zeta. intros H.
  unfold Rabs in *. destruct (Rcase_abs x), (Rcase_abs y);
  repeat match type of H with context [if ?c then _ else _] => destruct c end; try discriminate; injection H as <-;
  first [ left; split; [unfold atan2; repeat match goal with |- context [if ?c then _ else _] => destruct c end; lra | lra]
        | right; left; split; [lra|]; split; [lra|]; destruct (Rlt_dec 0 y); lra
        | right; right; split; [lra|]; split; [lra|]; destruct (Rlt_dec 0 x); lra ].
Qed.

Lemma hyp_facts x y : x <> 0 \/ y <> 0 -> let p := sqrt (x * x + y * y) in
  0 < p /\ Rabs x <= p /\ Rabs y <= p /\ p <= Rabs x + Rabs y.
Proof.
  intros H p. assert (Hp : 0 < p) by (apply hyp_pos; exact H).
  assert (Hs : p * p = x * x + y * y) by (apply sqrt_sqrt; nra).
  unfold Rabs. destruct (Rcase_abs x), (Rcase_abs y); repeat split; try exact Hp; nra.
Qed.

(* the returned angle has the direction cosines of (x, y) up to 1e-8 *)
Lemma arctan2_cs y x r : laue_arctan2 y x = Some r -> let p := sqrt (x * x + y * y) in
  0 < p /\ Rabs (cos r - x / p) <= tol /\ Rabs (sin r - y / p) <= tol.
Proof.
  intros H p. assert (T : 0 < tol) by (unfold tol; lra).
  destruct (arctan2_cases y x r H) as [[-> Hnz]|[(Hx & Hy & ->)|(Hy & Hx & ->)]].
  - destruct (hyp_facts x y Hnz) as (Hp & _). fold p in Hp. split; [exact Hp|].
    rewrite (cos_atan2 y x Hnz), (sin_atan2 y x Hnz). fold p.
    replace (x / p - x / p) with 0 by ring. replace (y / p - y / p) with 0 by ring. rewrite Rabs_R0. lra.
  - destruct (hyp_facts x y (or_intror Hy)) as (Hp & Bx & By & Bs). fold p in Hp, Bx, By, Bs. split; [exact Hp|].
    assert (Q : forall u, Rabs u <= tol * p -> Rabs (u / p) <= tol).
    { intros u Hu. unfold Rdiv. rewrite Rabs_mult, (Rabs_right (/ p)) by (left; apply Rinv_0_lt_compat; exact Hp).
      apply (Rmult_le_reg_r p); [exact Hp|]. rewrite Rmult_assoc, Rinv_l by lra. lra. }
    destruct (Rlt_dec 0 y) as [Py|Ny].
    + rewrite cos_PI2, sin_PI2. split.
      * replace (0 - x / p) with ((- x) / p) by (field; lra). apply Q. rewrite Rabs_Ropp. nra.
      * replace (1 - y / p) with ((p - y) / p) by (field; lra). apply Q.
        rewrite (Rabs_right y) in * by lra. rewrite Rabs_right by lra. nra.
    + assert (Ny' : y < 0) by lra. replace (- PI / 2) with (- (PI / 2)) by field. rewrite cos_neg, sin_neg, cos_PI2, sin_PI2. split.
      * replace (0 - x / p) with ((- x) / p) by (field; lra). apply Q. rewrite Rabs_Ropp. nra.
      * replace (- (1) - y / p) with ((- p - y) / p) by (field; lra). apply Q.
        rewrite (Rabs_left y) in * by lra. rewrite Rabs_left1 by lra. nra.
  - destruct (hyp_facts x y (or_introl Hx)) as (Hp & Bx & By & Bs). fold p in Hp, Bx, By, Bs. split; [exact Hp|].
    assert (Q : forall u, Rabs u <= tol * p -> Rabs (u / p) <= tol).
    { intros u Hu. unfold Rdiv. rewrite Rabs_mult, (Rabs_right (/ p)) by (left; apply Rinv_0_lt_compat; exact Hp).
      apply (Rmult_le_reg_r p); [exact Hp|]. rewrite Rmult_assoc, Rinv_l by lra. lra. }
    destruct (Rlt_dec 0 x) as [Px|Nx].
    + rewrite cos_0, sin_0. split.
      * replace (1 - x / p) with ((p - x) / p) by (field; lra). apply Q.
        rewrite (Rabs_right x) in * by lra. rewrite Rabs_right by lra. nra.
      * replace (0 - y / p) with ((- y) / p) by (field; lra). apply Q. rewrite Rabs_Ropp. nra.
    + assert (Nx' : x < 0) by lra. rewrite cos_PI, sin_PI. split.
      * replace (-1 - x / p) with ((- p - x) / p) by (field; lra). apply Q.
        rewrite (Rabs_left x) in * by lra. rewrite Rabs_left1 by lra. nra.
      * replace (0 - y / p) with ((- y) / p) by (field; lra). apply Q. rewrite Rabs_Ropp. nra.
Qed.

(* ---- entrywise closeness of matrices ---------------------------------------------------------------------------------------- *)
Definition mclose (e : R) (A B : M3) : Prop :=
  Rabs (m00 A - m00 B) <= e /\ Rabs (m01 A - m01 B) <= e /\ Rabs (m02 A - m02 B) <= e /\
  Rabs (m10 A - m10 B) <= e /\ Rabs (m11 A - m11 B) <= e /\ Rabs (m12 A - m12 B) <= e /\
  Rabs (m20 A - m20 B) <= e /\ Rabs (m21 A - m21 B) <= e /\ Rabs (m22 A - m22 B) <= e.
Definition bounded1 (M : M3) : Prop :=
  Rabs (m00 M) <= 1 /\ Rabs (m01 M) <= 1 /\ Rabs (m02 M) <= 1 /\ Rabs (m10 M) <= 1 /\ Rabs (m11 M) <= 1 /\ Rabs (m12 M) <= 1 /\
  Rabs (m20 M) <= 1 /\ Rabs (m21 M) <= 1 /\ Rabs (m22 M) <= 1.

Lemma abs_le_1 a b c : a * a + b * b + c * c = 1 -> Rabs a <= 1.
Proof. intros H. apply Rabs_le. split; nra. Qed.

Lemma rot_bounded1 U : is_rot U -> bounded1 U.
Proof.
  intros [HO _]. destruct U as [a b c d e f g h i]. unfold mmul, mtrans, mI in HO; cbn in HO.
  injection HO as O0 O1 O2 O3 O4 O5 O6 O7 O8. unfold bounded1; cbn [m00 m01 m02 m10 m11 m12 m20 m21 m22].
  repeat split; first [apply (abs_le_1 _ d g); nra | apply (abs_le_1 _ a g); nra | apply (abs_le_1 _ a d); nra
                      | apply (abs_le_1 _ e h); nra | apply (abs_le_1 _ b h); nra | apply (abs_le_1 _ b e); nra
                      | apply (abs_le_1 _ f i); nra | apply (abs_le_1 _ c i); nra | apply (abs_le_1 _ c f); nra].
Qed.

Lemma sum3_bound e d1 d2 d3 x1 x2 x3 : 0 <= e -> Rabs d1 <= e -> Rabs d2 <= e -> Rabs d3 <= e -> Rabs x1 <= 1 -> Rabs x2 <= 1 -> Rabs x3 <= 1 ->
  Rabs (d1 * x1 + d2 * x2 + d3 * x3) <= 3 * e.
Proof.
  intros He H1 H2 H3 X1 X2 X3.
  assert (P : forall d x, Rabs d <= e -> Rabs x <= 1 -> Rabs (d * x) <= e).
  { intros d x Hd Hx. rewrite Rabs_mult. pose proof (Rabs_pos d). pose proof (Rabs_pos x). nra. }
  pose proof (P _ _ H1 X1). pose proof (P _ _ H2 X2). pose proof (P _ _ H3 X3).
  eapply Rle_trans; [apply Rabs_triang|]. eapply Rle_trans; [apply Rplus_le_compat_r; apply Rabs_triang|]. lra.
Qed.

Lemma mclose_mmul_l e A A' M : 0 <= e -> mclose e A A' -> bounded1 M -> mclose (3 * e) (mmul A M) (mmul A' M).
Proof.
  intros He (H0 & H1 & H2 & H3 & H4 & H5 & H6 & H7 & H8) (B0 & B1 & B2 & B3 & B4 & B5 & B6 & B7 & B8).
  destruct A as [a b c d f g h i j], A' as [a' b' c' d' f' g' h' i' j'], M as [m0 m1 m2 m3 m4 m5 m6 m7 m8].
  cbn [m00 m01 m02 m10 m11 m12 m20 m21 m22] in *. unfold mclose, mmul; cbn [m00 m01 m02 m10 m11 m12 m20 m21 m22].
  repeat split;
  match goal with |- Rabs (?x1 * ?y1 + ?x2 * ?y2 + ?x3 * ?y3 - (?x1' * ?y1 + ?x2' * ?y2 + ?x3' * ?y3)) <= _ =>
    replace (x1 * y1 + x2 * y2 + x3 * y3 - (x1' * y1 + x2' * y2 + x3' * y3)) with ((x1 - x1') * y1 + (x2 - x2') * y2 + (x3 - x3') * y3) by ring;
    apply sum3_bound; assumption end.
Qed.

Lemma mclose_mmul_r e M B B' : 0 <= e -> bounded1 M -> mclose e B B' -> mclose (3 * e) (mmul M B) (mmul M B').
Proof.
  intros He (B0 & B1 & B2 & B3 & B4 & B5 & B6 & B7 & B8) (H0 & H1 & H2 & H3 & H4 & H5 & H6 & H7 & H8).
  destruct B as [a b c d f g h i j], B' as [a' b' c' d' f' g' h' i' j'], M as [m0 m1 m2 m3 m4 m5 m6 m7 m8].
  cbn [m00 m01 m02 m10 m11 m12 m20 m21 m22] in *. unfold mclose, mmul; cbn [m00 m01 m02 m10 m11 m12 m20 m21 m22].
  repeat split;
  match goal with |- Rabs (?y1 * ?x1 + ?y2 * ?x2 + ?y3 * ?x3 - (?y1 * ?x1' + ?y2 * ?x2' + ?y3 * ?x3')) <= _ =>
    replace (y1 * x1 + y2 * x2 + y3 * x3 - (y1 * x1' + y2 * x2' + y3 * x3')) with ((x1 - x1') * y1 + (x2 - x2') * y2 + (x3 - x3') * y3) by ring;
    apply sum3_bound; assumption end.
Qed.

Lemma mclose_trans e1 e2 A B C : mclose e1 A B -> mclose e2 B C -> mclose (e1 + e2) A C.
Proof.
  intros (H0 & H1 & H2 & H3 & H4 & H5 & H6 & H7 & H8) (K0 & K1 & K2 & K3 & K4 & K5 & K6 & K7 & K8).
  unfold mclose. repeat split;
  match goal with |- Rabs (?a - ?c) <= _ => match goal with X : Rabs (a - ?b) <= e1, Y : Rabs (?b - c) <= e2 |- _ =>
    replace (a - c) with ((a - b) + (b - c)) by ring; eapply Rle_trans; [apply Rabs_triang | lra] end end.
Qed.

Lemma mclose_Rz e r t : 0 <= e -> Rabs (cos r - cos t) <= e -> Rabs (sin r - sin t) <= e -> mclose e (Rz r) (Rz t).
Proof.
  intros He Hc Hs. unfold mclose, Rz; cbn [m00 m01 m02 m10 m11 m12 m20 m21 m22].
  replace (- sin r - - sin t) with (- (sin r - sin t)) by ring. rewrite Rabs_Ropp.
  replace (0 - 0) with 0 by ring. replace (1 - 1) with 0 by ring. rewrite Rabs_R0. repeat split; assumption.
Qed.

(* ---- outside the gimbal band: whatever _arctan2 does, the round trip is accurate to 1.2e-7 ------------------------------------ *)
Theorem euler_band U e : is_rot U -> not_gimbal U -> laue_u_to_euler U = Some e ->
  mclose (12 * tol) (laue_euler_to_u (vx e) (vy e) (vz e)) U.
Proof.
  intros HR [G1 G2] H. assert (T : 0 <= tol) by (unfold tol; lra).
  unfold laue_u_to_euler in H.
  destruct (Rlt_dec _ _) as [L|_]; [lra|]. destruct (Rlt_dec _ _) as [L|_]; [lra|].
  destruct (laue_arctan2 (m02 U) (- m12 U)) as [r3|] eqn:E3; [|discriminate].
  destruct (laue_arctan2 (m20 U) (m21 U)) as [r4|] eqn:E4; [|discriminate].
  destruct (arctan2_cs _ _ _ E3) as (P3 & C3 & S3). destruct (arctan2_cs _ _ _ E4) as (P4 & C4 & S4). cbv zeta in *.
  (* the exact angles *)
  assert (Hnz : m12 U <> 0 \/ m02 U <> 0).
  { destruct (Req_dec (m12 U) 0) as [Z|Z]; [|left; exact Z]. right. intro Z2. rewrite Z, Z2 in P3.
    replace (- 0 * - 0 + 0 * 0) with 0 in P3 by ring. rewrite sqrt_0 in P3. lra. }
  assert (Hnz3 : - m12 U <> 0 \/ m02 U <> 0) by (destruct Hnz; [left; lra | right; assumption]).
  assert (Hnz4 : m21 U <> 0 \/ m20 U <> 0).
  { destruct (Req_dec (m21 U) 0) as [Z|Z]; [|left; exact Z]. right. intro Z2. rewrite Z, Z2 in P4.
    replace (0 * 0 + 0 * 0) with 0 in P4 by ring. rewrite sqrt_0 in P4. lra. }
  set (t3 := atan2 (m02 U) (- m12 U)) in *. set (t4 := atan2 (m20 U) (m21 U)) in *.
  assert (M3c : mclose tol (Rz r3) (Rz t3)).
  { apply mclose_Rz; [exact T | unfold t3; rewrite (cos_atan2 _ _ Hnz3); exact C3 | unfold t3; rewrite (sin_atan2 _ _ Hnz3); exact S3]. }
  assert (M4c : mclose tol (Rz r4) (Rz t4)).
  { apply mclose_Rz; [exact T | unfold t4; rewrite (cos_atan2 _ _ Hnz4); exact C4 | unfold t4; rewrite (sin_atan2 _ _ Hnz4); exact S4]. }
  pose proof (euler_main U HR Hnz) as EM. fold t3 t4 in EM.
  set (P := acos (m22 U)) in *.
  assert (Close : mclose (12 * tol) (mmul (Rz r3) (mmul (Rx P) (Rz r4))) U).
  { rewrite <- EM at 1.
    replace (12 * tol) with (3 * tol + 3 * (3 * tol)) by ring.
    apply (mclose_trans _ _ _ (mmul (Rz t3) (mmul (Rx P) (Rz r4)))).
    - apply mclose_mmul_l; [exact T | exact M3c |]. apply rot_bounded1. apply rot_mmul; auto using rot_Rx, rot_Rz.
    - apply mclose_mmul_r; [lra | apply rot_bounded1; apply rot_Rz |].
      apply mclose_mmul_r; [exact T | apply rot_bounded1; apply rot_Rx | exact M4c]. }
  destruct (Rlt_dec r3 0), (Rlt_dec r4 0); injection H as <-; cbn [vx vy vz]; rewrite laue_euler_comp, ?Rz_2PI; exact Close.
Qed.

Corollary euler_band_1e6 U e : is_rot U -> not_gimbal U -> laue_u_to_euler U = Some e ->
  mclose (1 / 1000000) (laue_euler_to_u (vx e) (vy e) (vz e)) U.
Proof.
  intros HR HG H. pose proof (euler_band U e HR HG H) as (H0 & H1 & H2 & H3 & H4 & H5 & H6 & H7 & H8).
  unfold tol in *. unfold mclose. repeat split; lra.
Qed.

#!/venv/bin/python
"""Re-confirm every seed kept under /verif/seeded against the current /repo HEAD in a scratch worktree (removed afterwards):
demo passes on the clean tree, fails with the patch, and the 73 tests pass with the patch.  Updates meta.json and verify_summary.json."""
import os, sys, json, subprocess
WT = '/tmp/wt_reverify'
PY = '/venv/bin/python'


def sh(cmd, cwd=None, env=None):
    p = subprocess.run(cmd, shell=True, cwd=cwd, env=env, stdout=subprocess.PIPE, stderr=subprocess.STDOUT, universal_newlines=True)
    return p.returncode, p.stdout


def main():
    if os.path.exists(WT):
        sh('git -C /repo worktree remove --force %s' % WT)
    rc, out = sh('git -C /repo worktree add -q --detach %s HEAD' % WT)
    assert rc == 0, out
    head = subprocess.check_output(['git', '-C', '/repo', 'log', '--format=%h', '-1']).decode().strip()
    env = dict(os.environ, PYTHONPATH=WT, PYTHONWARNINGS='ignore', PYTHONDONTWRITEBYTECODE='1')
    names = sys.argv[1:] or sorted(d for d in os.listdir('/verif/seeded') if d.startswith('C'))
    summary = {}
    try:
        summary = json.load(open('/verif/seeded/verify_summary.json'))
    except Exception:
        pass
    for name in names:
        d = '/verif/seeded/%s' % name
        sh('git checkout -q -- . && git clean -fdq', cwd=WT)
        rc0, o0 = sh('%s %s/demo.py' % (PY, d), cwd=WT, env=env)
        rca, oa = sh('git apply %s/patch.diff' % d, cwd=WT)
        rc1, o1 = sh('%s %s/demo.py' % (PY, d), cwd=WT, env=env) if rca == 0 else (None, '')
        rct, ot = sh('%s -m pytest -q -p no:cacheprovider --timeout=900 test 2>&1 | tail -1' % PY, cwd=WT, env=env) if rca == 0 else (None, '')
        sh('git checkout -q -- . && git clean -fdq', cwd=WT)
        ok = rc0 == 0 and rca == 0 and rc1 not in (0, None) and '73 passed' in ot
        summary[name] = dict(head=head, demo_clean_rc=rc0, apply_rc=rca, demo_patched_rc=rc1, tests=ot.strip(), confirmed=ok)
        print(name, summary[name], flush=True)
        m = json.load(open(d + '/meta.json'))
        m['reconfirmed'] = dict(head=head, confirmed=ok, demo_clean_rc=rc0, demo_patched_rc=rc1, tests=ot.strip())
        json.dump(m, open(d + '/meta.json', 'w'), indent=1)
    sh('git -C /repo worktree remove --force %s' % WT)
    sh('rm -rf %s' % WT)
    json.dump(summary, open('/verif/seeded/verify_summary.json', 'w'), indent=1)


main()

#!/venv/bin/python
"""Run the registered quick checks against every seeded change kept under /verif/seeded: apply the patch to /repo, run the
check(s), undo (git checkout -- .), restore the evidence directory.  Writes seeded/detection.json.
usage: seeds_matrix.py [seed names...]     (default: all)"""
import os, sys, json, subprocess, shutil, re
EXTRA = {'C05': ['C06'], 'C06': ['C05'], 'C13': ['C14'], 'C07': ['C08'], 'C08': ['C07'], 'C01': ['C14'], 'C02': ['C14'], 'C03': ['C14'], 'C09': ['C14']}


def sh(cmd, cwd=None, timeout=3600):
    p = subprocess.run(cmd, shell=True, cwd=cwd, stdout=subprocess.PIPE, stderr=subprocess.STDOUT, universal_newlines=True, timeout=timeout)
    return p.returncode, p.stdout


def main():
    names = sys.argv[1:] or sorted(d for d in os.listdir('/verif/seeded') if d.startswith('C'))
    out = {}
    try:
        out = json.load(open('/verif/seeded/detection.json'))
    except Exception:
        pass
    assert sh('git -C /repo status --short')[1].strip() == '', '/repo not clean'
    keep = '/verif/build/evidence.keep'
    shutil.rmtree(keep, ignore_errors=True)
    shutil.copytree('/verif/evidence', keep)
    head = sh('git -C /repo log --format=%h -1')[1].strip()
    try:
        for name in names:
            pid = name.split('_')[0]
            rc, o = sh('git -C /repo apply /verif/seeded/%s/patch.diff' % name)
            if rc:
                out[name] = {'head': head, 'error': 'patch does not apply'}
                continue
            res = {}
            try:
                for cid in [pid] + EXTRA.get(pid, []):
                    rc, o = sh('/verif/check %s --tier quick 2>/dev/null' % cid, cwd='/verif')
                    v = [l for l in o.splitlines() if l.startswith('VIOLATION')]
                    res[cid] = {'exit': rc, 'violation': bool(v), 'concrete_input': bool(v) and not any('no-failing-input-found' in l for l in v),
                                'summary': ([l for l in o.splitlines() if re.match(r'^C\d\d ', l)] or [''])[-1]}
            finally:
                sh('git -C /repo checkout -- .')
            out[name] = {'head': head, 'checks': res, 'detected_by_own_check': res[pid]['violation']}
            print(name, json.dumps(out[name]), flush=True)
            json.dump(out, open('/verif/seeded/detection.json', 'w'), indent=1)
    finally:
        sh('git -C /repo checkout -- .')
        shutil.rmtree('/verif/evidence', ignore_errors=True)
        shutil.move(keep, '/verif/evidence')
    print('repo status:', sh('git -C /repo status --short')[1])


main()

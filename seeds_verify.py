#!/venv/bin/python
"""Confirm each sub-agent patch in a scratch worktree of /repo HEAD (demo passes unchanged, fails with the change,
73 tests pass with the change) and store confirmed ones under /verif/seeded/<id>/."""
import os, sys, json, subprocess, shutil
SRC = os.environ.get('SEED_SRC', '/tmp/wt_out')
OFFSET = int(os.environ.get('SEED_OFFSET', '0'))      # round 2: SEED_SRC=/tmp/wt2_out SEED_OFFSET=2 -> seeded/<id>_3, _4
WT = '/tmp/wt/verify'
PY = '/venv/bin/python'


def sh(cmd, cwd=None, env=None):
    p = subprocess.run(cmd, shell=True, cwd=cwd, env=env, stdout=subprocess.PIPE, stderr=subprocess.STDOUT, universal_newlines=True)
    return p.returncode, p.stdout


def main():
    if os.path.exists(WT):
        sh('git -C /repo worktree remove --force %s' % WT)
    rc, out = sh('git -C /repo worktree add -q --detach %s HEAD' % WT)
    assert rc == 0, out
    env = dict(os.environ, PYTHONPATH=WT, PYTHONWARNINGS='ignore', PYTHONDONTWRITEBYTECODE='1')
    ids = sys.argv[1:] or sorted(d for d in os.listdir(SRC) if d.startswith('C'))
    summary = {}
    for pid in ids:
        for i in (1, 2):
            patch = '%s/%s/patch_%d.diff' % (SRC, pid, i)
            demo = '%s/%s/demo_%d.py' % (SRC, pid, i)
            meta = '%s/%s/meta_%d.json' % (SRC, pid, i)
            if not (os.path.exists(patch) and os.path.exists(demo)):
                continue
            sh('git checkout -q -- . && git clean -fdq', cwd=WT)
            rc0, o0 = sh('%s %s' % (PY, demo), cwd=WT, env=env)
            rca, oa = sh('git apply %s' % patch, cwd=WT)
            rc1, o1 = sh('%s %s' % (PY, demo), cwd=WT, env=env) if rca == 0 else (None, '')
            rct, ot = sh('%s -m pytest -q -p no:cacheprovider --timeout=900 test 2>&1 | tail -1' % PY, cwd=WT, env=env) if rca == 0 else (None, '')
            sh('git checkout -q -- . && git clean -fdq', cwd=WT)
            ok = rc0 == 0 and rca == 0 and rc1 not in (0, None) and '73 passed' in ot
            name = '%s_%d' % (pid, i + OFFSET)
            summary[name] = dict(demo_clean_rc=rc0, apply_rc=rca, demo_patched_rc=rc1, tests=ot.strip(), confirmed=ok)
            print(name, summary[name], flush=True)
            if ok:
                d = '/verif/seeded/%s' % name
                os.makedirs(d, exist_ok=True)
                shutil.copy(patch, d + '/patch.diff')
                shutil.copy(demo, d + '/demo.py')
                m = {}
                try:
                    m = json.load(open(meta))
                except Exception:
                    pass
                m.update(property=pid, confirmed_by='seeds_verify.py in a scratch worktree of /repo HEAD %s' % subprocess.check_output(['git', '-C', '/repo', 'log', '--format=%h', '-1']).decode().strip(),
                         ran=['demo on clean tree: exit 0', 'git apply patch.diff', 'demo with patch: exit %s' % rc1, 'pytest: ' + ot.strip()])
                json.dump(m, open(d + '/meta.json', 'w'), indent=1)
    sh('git -C /repo worktree remove --force %s' % WT)
    try:
        old = json.load(open('/verif/seeded/verify_summary.json'))
    except Exception:
        old = {}
    old.update(summary)
    json.dump(old, open('/verif/seeded/verify_summary.json', 'w'), indent=1)


main()

#!/bin/sh
# usage: tools_seed.sh <patch> <prop ids...> : apply a seeded patch to /repo, run the checks, undo.
# evidence files are restored afterwards (committed evidence must come from the unchanged tree)
p=$1; shift
cp -r /verif/evidence /tmp/evidence.keep.$$
git -C /repo apply "$p" 2>/dev/null || { echo "patch does not apply"; exit 9; }
for id in "$@"; do
  /verif/check $id --tier quick 2>/dev/null | grep -E "VIOLATION|KNOWN|BROKEN|^C[0-9]+ "
done
git -C /repo checkout -- .
git -C /repo status --short
rm -rf /verif/evidence; mv /tmp/evidence.keep.$$ /verif/evidence

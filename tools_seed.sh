#!/bin/sh
# usage: tools_seed.sh <patch> <prop ids...> : apply a seeded patch to /repo, run the checks, undo
p=$1; shift
git -C /repo apply "$p" || exit 9
for id in "$@"; do
  /verif/check $id --tier quick 2>/dev/null | grep -E "VIOLATION|KNOWN|BROKEN|^C[0-9]+ " 
done
git -C /repo checkout -- .
git -C /repo status --short

#!/bin/sh
# run every claimed check (quick by default) on the current /repo tree; prints one summary line per property
tier=${1:-quick}
cd /verif
for id in $(/venv/bin/python -c "import json;print(' '.join(c['property_id'] for c in json.load(open('MANIFEST.json'))['checks']))"); do
  out=$(./check $id --tier $tier 2>/dev/null | grep -E "VIOLATION|^C[0-9]+ |KNOWN-FINDING" | cut -c1-140)
  echo "$out" | sed "s/^/[$id] /"
done
